"""C02 / C03: the static operator table (TypeLayout::get_output_type, native part) against the run-time operator semantics.

K-t: the `match (me, other, op)` table of get_output_type and the enums NativeType / Op are copied verbatim into a
dependency-free crate; one loop-free Kani harness quantifies over every (left kind, right kind, operator) cell.
The run-time side of each numeric cell is what C05 proves of the interpreter (kind = promote, comparisons yield bool);
the string / boolean cells are the arms of add.rs / mul.rs / bin_op (stated as the spec `rt`)."""
import os, re
from pathlib import Path
from vlib.rules import *
from vlib.pattern import Pat
from vlib.lexer import match_close
from vlib import kani as K
from vlib.core import UnitResult

TYPE = "compiler/src/ast/type.rs"
MATH = "compiler/src/ast/math_expr.rs"

HARNESS = r"""
#[cfg(kani)]
mod verif {
    use super::*;
    fn any_kind() -> NativeType {
        let k: u8 = kani::any(); kani::assume(k < 6);
        let n: u8 = kani::any();
        let w = if kani::any() { Some(n as usize) } else { None };
        match k { 0 => NativeType::Bool, 1 => NativeType::Str(StrWrapper(w)), 2 => NativeType::Int, 3 => NativeType::BigInt, 4 => NativeType::Float, _ => NativeType::Byte }
    }
    fn kind(t: &NativeType) -> u8 { match t { NativeType::Bool => 0, NativeType::Str(_) => 1, NativeType::Int => 2, NativeType::BigInt => 3, NativeType::Float => 4, NativeType::Byte => 5 } }
    fn any_op() -> (Op, u8) {
        let o: u8 = kani::any(); kani::assume(o < 19);
        (match o { 0 => Op::Add, 1 => Op::Subtract, 2 => Op::Multiply, 3 => Op::Divide, 4 => Op::Modulo,
                   5 => Op::Lt, 6 => Op::Gt, 7 => Op::Lte, 8 => Op::Gte, 9 => Op::Eq, 10 => Op::Neq,
                   11 => Op::And, 12 => Op::Or, 13 => Op::Xor,
                   14 => Op::BinaryXor, 15 => Op::BinaryOr, 16 => Op::BinaryAnd, 17 => Op::BitwiseLs, _ => Op::BitwiseRs }, o)
    }
    fn is_num(k: u8) -> bool { k >= 2 }
    fn is_intk(k: u8) -> bool { k == 2 || k == 3 || k == 5 }
    // promotion table of the statement (kinds: 2 int, 3 bigint, 4 float, 5 byte)
    fn promote(l: u8, r: u8) -> u8 { if l == 4 || r == 4 { 4 } else if l == r { l } else if l == 5 { r } else if r == 5 { l } else { 3 } }
    // kind the run-time operator yields on operands of kinds (l, r), None = it cannot succeed on any values of those kinds
    fn rt(l: u8, r: u8, o: u8) -> Option<u8> {
        match o {
            0 => if is_num(l) && is_num(r) { Some(promote(l, r)) } else if l == 1 || r == 1 { Some(1) } else { None },          // + : numbers; str + any, any + str
            2 => if is_num(l) && is_num(r) { Some(promote(l, r)) } else if (l == 1 && (r == 2 || r == 3)) || (r == 1 && (l == 2 || l == 3)) { Some(1) } else { None },  // * : numbers; str * int|bigint
            1 | 3 | 4 => if is_num(l) && is_num(r) { Some(promote(l, r)) } else { None },
            5 | 6 | 7 | 8 => if is_num(l) && is_num(r) { Some(0) } else { None },
            9 | 10 => if (is_num(l) && is_num(r)) || (l == 1 && r == 1) || (l == 0 && r == 0) { Some(0) } else { None },
            11 | 12 | 13 => if l == 0 && r == 0 { Some(0) } else { None },
            _ => if is_intk(l) && is_intk(r) { Some(promote(l, r)) } else { None },
        }
    }
    #[kani::proof]
    fn c02_optable() {
        let (a, b) = (any_kind(), any_kind());
        let (op, o) = any_op();
        let (l, r) = (kind(&a), kind(&b));
        // (bool == bool is decided by the `lhs == other && supports_equ()` test in front of the table)
        kani::assume(!(l == 0 && r == 0 && (o == 9 || o == 10)));
        let st = native_table(&a, &b, &op);
        match (st, rt(l, r, o)) {
            (Some(t), Some(k)) => assert!(kind(&t) == k, "C02.optable.kind: the static result type of the cell differs from the kind the run-time operator yields"),
            (Some(_), None) => assert!(false, "C02.optable.unsound: the table accepts a cell on which the run-time operator cannot succeed (dynamic type error)"),
            (None, Some(_)) => assert!(false, "C03.optable.spurious: the table rejects a cell the run-time operator supports"),
            (None, None) => (),
        }
    }
}
"""


class OpTableUnit:
    engine = "kani"
    uid = "c02_optable"
    props = ["C02", "C03"]
    title = "static operator table vs run-time operator kinds (K-t, every cell)"
    timeout = 900
    assumes = [
        "K-t extraction: only the native `match (me, other, op)` table of get_output_type; the wrappers in front of it (generics, optionals, class constructors, op-assign redirection, `lhs == other && supports_equ()`) are not part of this unit",
        "the run-time side of the numeric cells is the contract C05 proves of the interpreter (kind = promote, comparisons yield bool); string/bool cells are read from add.rs / mul.rs / bin_op",
        "string lengths in Str(StrWrapper(Some(n))) are limited to u8 in the harness (the table only adds them)",
    ]

    def run(self, repo, workdir, tier):
        res = UnitResult(self.uid)
        res.engine = "kani 0.68 / cbmc 6.11 (K-t)"
        src = Source(repo)
        f = src.fn(TYPE, "get_output_type", "impl TypeLayout")
        body = f["body"]
        p = Pat("let matched = match ( me , other , op ) {")
        start = None
        for i in range(len(body)):
            r = p.match_at(body, i)
            if r:
                start = i; o = r[0] - 1; break
        if start is None:
            raise Undecided("get_output_type: `let matched = match (me, other, op) {` not found")
        c = match_close(body, o)
        table = body[start:c + 1] + [";"]
        nt = src.item(TYPE, "pub enum NativeType")
        op = src.item(MATH, "pub enum Op")
        lib = ("#![allow(warnings)]\n// K-t: verbatim enums and table from compiler/src/ast/type.rs, math_expr.rs\n"
               "#[derive(Debug, Clone, Copy, PartialEq, Eq)] pub struct StrWrapper(pub Option<usize>);\n"
               "#[derive(Debug, Clone, Copy, PartialEq, Eq)]\n" + render(nt["all"], 0) + "\n"
               "#[derive(Debug, Clone, PartialEq)]\n" + render(op["all"], 0) + "\n"
               "pub fn native_table(me: &NativeType, other: &NativeType, op: &Op) -> Option<NativeType> {\n    use NativeType::*;\n    use Op::*;\n"
               + render(table, 1) + "\n    Some(matched)\n}\n" + HARNESS)
        crate = K.write_crate(Path(workdir) / "kt_optable", "kt_optable", lib)
        res.gen_path = str(crate / "src/lib.rs")
        per, raw, wall, cmd, timed_out = K.run_kani(crate, jobs=2, timeout=self.timeout)
        res.raw = raw[-8000:]; res.checker_cmd = cmd
        res.functions = ["type.rs: TypeLayout::get_output_type (native operator table)"]
        res.samples = ["cell = (left NativeType, right NativeType, Op) symbolic over all 6 x 6 x 19 combinations"]
        r = per.get("c02_optable")
        o2 = Obl("C02.optable.sound", ["C02"], fn="c02_optable", engine="kani/cbmc", desc="every accepted cell: static result kind == kind the run-time operator yields (promotion table / bool / str); no accepted cell on which the run-time operator cannot succeed")
        o3 = Obl("C03.optable.rejects", ["C03"], fn="c02_optable", engine="kani/cbmc", desc="operator applied to unsupported kinds: the table yields None exactly where the run-time operator cannot succeed")
        if r is None or r["status"] is None or r["oom"] or timed_out:
            for o in (o2, o3):
                o.status = "undecided"; o.detail = "no verdict from kani: " + raw[-1200:]
        else:
            named, panics, ign, other = K.classify(r["failed"])
            if other or r["unwind"] or r["unsupported"]:
                for o in (o2, o3):
                    o.status = "undecided"; o.detail = "unclassified: " + repr(r["failed"][:3])
            else:
                n2 = [x for x in named if x[0].startswith("C02")] + panics
                n3 = [x for x in named if x[0].startswith("C03") or "unsound" in x[0]]
                o2.status = "failed" if n2 else "discharged"; o2.detail = "\n".join(f"{d} @ {l}" for d, l in n2); o2.time_s = r["time"]
                o3.status = "failed" if n3 else "discharged"; o3.detail = "\n".join(f"{d} @ {l}" for d, l in n3)
        res.obls = [o2, o3]
        return res

    def witness(self, repo, o, res):
        from units.c05_ops import OpsUnit
        return OpsUnit.witness(self, repo, o, res)

    def cli_replay(self, repo, o, vals):
        """the failing cell (left kind, right kind, operator) decoded from kani's bytes -> a two-operand program on the real CLI:
        static `typeof` of the result against what the run-time operator does"""
        from vlib import cli
        if len(vals) < 7:
            return {"replayed_on_real_cli": False, "why": "unexpected number of symbolic inputs"}
        ka, kb, op = vals[0][0], vals[3][0], vals[6][0]
        names = ["bool", "str", "int", "bigint", "float", "byte"]
        sample = ["true", '"ab"', "6", "B6", "1.5", "0b11"]
        syms = ["+", "-", "*", "/", "%", "<", ">", "<=", ">=", "==", "!=", "&&", "||", "^", "xor ", "|", "&", "<<", ">>"]
        if ka > 5 or kb > 5 or op > 18:
            return {"replayed_on_real_cli": False, "why": "counterexample outside the assumed cell range"}
        def promote(l, r): return 4 if 4 in (l, r) else l if l == r else r if l == 5 else l if r == 5 else 3
        num = lambda k: k >= 2
        intk = lambda k: k in (2, 3, 5)
        def rt(l, r, o):
            if o == 0: return promote(l, r) if num(l) and num(r) else 1 if 1 in (l, r) else None
            if o == 2: return promote(l, r) if num(l) and num(r) else 1 if (l == 1 and r in (2, 3)) or (r == 1 and l in (2, 3)) else None
            if o in (1, 3, 4): return promote(l, r) if num(l) and num(r) else None
            if o in (5, 6, 7, 8): return 0 if num(l) and num(r) else None
            if o in (9, 10): return 0 if (num(l) and num(r)) or (l == r and l in (0, 1)) else None
            if o in (11, 12, 13): return 0 if l == 0 and r == 0 else None
            return promote(l, r) if intk(l) and intk(r) else None
        want = rt(ka, kb, op)
        prog = f"a = {sample[ka]}\nb = {sample[kb]}\nr = a {syms[op]} b\nprint typeof r\nprint r\n"
        run = cli.run_program(repo, prog)
        out = [l for l in run["stdout"].splitlines() if l.strip() and not l.startswith("Compiled in")]
        compiled = "Compiled in" in run["stdout"]
        if not compiled:
            actual = "rejected by the compiler"; rep = want is not None
        elif run["exit"] != 0:
            actual = "accepted by the compiler, fails at run time"; rep = True
        else:
            actual = f"accepted, static type {out[0].strip() if out else '?'}"; rep = want is None or (out and not out[0].strip().startswith(names[want]))
        return {"replayed_on_real_cli": True, "reproduced_on_real_cli": bool(rep), "cell": f"{names[ka]} {syms[op].strip()} {names[kb]}",
                "expected_by_the_property": "rejected (the run-time operator cannot succeed)" if want is None else f"accepted with static type {names[want]}", "actual": actual, **run}


UNITS = [OpTableUnit()]

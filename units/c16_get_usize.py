"""C16 / C03: Value::get_usize (value.rs) -- the compile-time value of an index.  A constant index is bounds-checked by the parser; only an
index that is NOT a compile-time constant may be left to run time.  A constant that is no valid position (negative, too large) is a
diagnostic here -- if it were passed on as "not constant", code generation would meet it again where a failure is a panic."""
from vlib.rules import *

FILE = "compiler/src/ast/value.rs"

SPEC = r"""
use vstd::prelude::*;
verus! {
pub struct VErr;
#[verifier::external_body] pub struct Number { x: usize }
#[verifier::external_body] pub struct OtherV { x: usize }
pub enum Value { Number(Number), Other(OtherV) }
pub enum ValToUsize { Ok(usize), NotConstexpr, NaN }
// Expr / Value::try_constexpr_eval: abstract (None: not a compile-time constant)
pub uninterp spec fn const_value(v: Value) -> Option<Value>;
pub uninterp spec fn const_fails(v: Value) -> bool;
#[verifier::external_body] pub struct ConstexprEvaluation { x: usize }
pub uninterp spec fn eval_of(e: ConstexprEvaluation) -> Option<Value>;
impl ConstexprEvaluation {
    #[verifier::external_body] pub fn is_impossible(&self) -> (r: bool) ensures r == (eval_of(*self) is None) { unimplemented!() }
    #[verifier::external_body] pub fn as_ref(&self) -> (r: Option<&Value>) ensures r is Some <==> eval_of(*self) is Some, r is Some ==> *r->Some_0 == eval_of(*self)->Some_0 { unimplemented!() }
}
// TryFrom<&Number> for usize (obligation C16.number.to_usize): the literal's value when it is a non-negative integer that fits
pub uninterp spec fn number_value(n: Number) -> Option<int>;        // None: not an integer literal (float)
pub open spec fn fits(n: Number) -> bool { number_value(n) is Some && 0 <= number_value(n)->Some_0 <= usize::MAX }
#[verifier::external_body] pub fn number_to_usize(n: &Number) -> (r: Result<usize, VErr>) ensures r is Ok <==> fits(*n), r is Ok ==> r->Ok_0 == number_value(*n)->Some_0 { unimplemented!() }
#[verifier::external_body] pub fn opt_unwrap<'a>(o: Option<&'a Value>) -> (r: &'a Value) requires o is Some ensures Some(r) == o { o.unwrap() }
"""


def build(repo):
    src = Source(repo)
    log = []
    f = src.fn(FILE, "get_usize", "impl Value")
    b = translate(f["body"], [
        Rule("R6", "self . try_constexpr_eval ( ) ?", "try_constexpr_eval ( self ) ?", why="constant folder abstract"),
        Rule("R8", "maybe_evaluable . as_ref ( ) . unwrap ( )", "opt_unwrap ( maybe_evaluable . as_ref ( ) )", why="unwrap with its panic precondition"),
        Rule("R7", "number . try_into ( ) ?", "number_to_usize ( number ) ?", why="TryFrom<&Number> for usize (own obligation in c16_helpers)"),
        Rule("R7", "usize :: try_from ( number )", "number_to_usize ( number )", why="TryFrom<&Number> for usize"),
    ], log, "Value::get_usize")
    check_closed(b, "Value::get_usize")
    gen = header(log, f"{FILE}: Value::get_usize") + SPEC + f"""
#[verifier::external_body] pub fn try_constexpr_eval(v: &Value) -> (r: Result<ConstexprEvaluation, VErr>)
    ensures r is Ok <==> !const_fails(*v), r is Ok ==> eval_of(r->Ok_0) == const_value(*v) {{ unimplemented!() }}
impl Value {{
    //@ OBL C16.index.get_usize
    pub fn get_usize(&self) -> (r: Result<ValToUsize, VErr>)
        ensures
            // left to run time only when it is not a compile-time constant
            (r is Ok && r->Ok_0 is NotConstexpr) ==> const_value(*self) is None,
            // a constant position is exactly the literal's value; a constant number that is no position is a diagnostic
            (r is Ok && r->Ok_0 is Ok) ==> const_value(*self) is Some && const_value(*self)->Some_0 is Number
                && fits(const_value(*self)->Some_0->Number_0) && r->Ok_0->Ok_0 == number_value(const_value(*self)->Some_0->Number_0)->Some_0,
            (r is Ok && r->Ok_0 is NaN) ==> const_value(*self) is Some && !(const_value(*self)->Some_0 is Number),
    {{
{render(b, 2)}
    }}
}}
}} // verus!
fn main() {{}}
"""
    return gen, [Obl("C16.index.get_usize", ["C16", "C03"], fn="Value::get_usize", desc="get_usize: a constant index is never passed on as `not constant`; a constant that is no position is a diagnostic")], log


UNITS = [VUnit("c16_get_usize", ["C16", "C03"], "compile-time value of an index", build)]
UNITS[0].assumes = ["try_constexpr_eval abstract; TryFrom<&Number> for usize is obligation C16.number.to_usize (c16_helpers)", "the callers (ListType / TypeLayout index checks) and Index::compile are not under contract here"]

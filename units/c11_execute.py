"""C11 / C17 / C01: Program::execute (bytecode/src/interpreter.rs) -- the start of a run.  The entry module is registered in the module cache
BEFORE its code runs, under exactly the key an `import` of it is looked up with (`<path>#__module__`, the label the compiler emits): a module
that imports the entrypoint back gets the running instance, and the entrypoint's top-level code is not run a second time (C11).  The run's
outcome is the program's outcome: a failed run -- or a call stack that is not empty at the end -- makes `execute` fail (C17: failure status)."""
from vlib.rules import *

FILE = "bytecode/src/interpreter.rs"

SPEC = r"""
use vstd::prelude::*;
verus! {
pub struct VErr;
#[verifier::external_body] pub struct VString { x: usize }
pub uninterp spec fn text_of(s: &VString) -> Seq<char>;
pub open spec fn module_suffix() -> Seq<char> { seq!['#', '_', '_', 'm', 'o', 'd', 'u', 'l', 'e', '_', '_'] }
// format!("{path}#__module__")
#[verifier::external_body] pub fn module_key(path: &VString) -> (r: VString) ensures text_of(&r) == text_of(path) + module_suffix() { unimplemented!() }
// other ways of spelling a path a change may bring in: uninterpreted
pub uninterp spec fn replaced_text(t: Seq<char>, a: Seq<char>, b: Seq<char>) -> Seq<char>;
impl VString {
    #[verifier::external_body] pub fn replace(&self, a: &str, b: &str) -> (r: VString) ensures text_of(&r) == replaced_text(text_of(self), a@, b@) { unimplemented!() }
}
#[verifier::external_body] pub struct FileV { x: usize }
#[verifier::external_body] #[derive(Clone, Copy)] pub struct ExportsH { x: usize }               // the file's export table (a shared handle)
pub uninterp spec fn exports_of(f: &FileV) -> ExportsH;
#[verifier::external_body] pub fn get_exports(f: &FileV) -> (r: ExportsH) ensures r == exports_of(f) { unimplemented!() }
#[verifier::external_body] pub struct ModuleCache { x: usize }
pub uninterp spec fn cache_view(c: &ModuleCache) -> Map<Seq<char>, ExportsH>;
#[verifier::external_body] pub fn cache_insert(c: &mut ModuleCache, k: VString, v: ExportsH) ensures cache_view(final(c)) == cache_view(old(c)).insert(text_of(&k), v) { unimplemented!() }
#[verifier::external_body] pub struct StackH { x: usize }
#[verifier::external_body] pub fn new_stack() -> (r: StackH) { unimplemented!() }
pub uninterp spec fn final_stack_size(s: &StackH) -> int;
#[verifier::external_body] pub fn stack_size(s: &StackH) -> (r: usize) ensures r == final_stack_size(s) { unimplemented!() }
// the run of the entry module's top-level code; the cache as it was when the run started is recorded
pub uninterp spec fn run_outcome(f: &FileV, s: &StackH) -> bool;        // true: ended without a failure
pub struct Program { pub module_cache: ModuleCache, pub entry_path: VString, pub cache_at_start: Ghost<Option<Map<Seq<char>, ExportsH>>> }
#[verifier::external_body] pub fn flush_stdout() -> (r: Result<(), VErr>) { unimplemented!() }
#[verifier::external_body] pub fn report(x: u8) { unimplemented!() }
impl Program {
    #[verifier::external_body] pub fn get_file(&self, path: &VString) -> (r: Result<FileV, VErr>) { unimplemented!() }
    #[verifier::external_body] pub fn run_module(&mut self, f: &FileV, s: &StackH) -> (r: Result<(), VErr>)
        ensures r is Ok <==> run_outcome(f, s), final(self).cache_at_start@ == Some(cache_view(&old(self).module_cache)), final(self).entry_path == old(self).entry_path { unimplemented!() }
}
"""


def fmt_key(bb):
    import re as _re
    m = _re.fullmatch(r'"\{(\w+)\}#__module__"', text(bb["s"]))
    if not m:
        return None
    return f"module_key ( & {m.group(1)} )" if m.group(1) != "path" else "module_key ( path )"


def build(repo):
    src = Source(repo)
    log = []
    f = src.fn(FILE, "execute", "impl Program")
    b = translate(f["body"], [
        Rule("R3", "bail ! $a", "return Err ( VErr )", why="bail! -> return Err"),
        Rule("R10", "let path = self . entrypoint . upgrade ( ) . unwrap ( ) ;", "let path = & self . entry_path ;", why="Weak<String> of the entry path -> field"),
        Rule("R6", "self . get_file ( & path ) ?", "self . get_file ( path ) ?", why="file loading abstract"),
        Rule("R10", "let mut cache_view = self . module_cache . borrow_mut ( ) ;", "", why="RefCell borrow of the cache dropped (cache is a &mut field)"),
        Rule("R9", "format ! ( $s )", fmt_key, why="format!(\"{x}#__module__\"): the text of x followed by the module label"),
        Rule("R10", "cache_view . insert ( $$k , RefCell :: new ( entrypoint . get_exports ( ) . clone ( ) ) , ) ;", "cache_insert ( & mut self . module_cache , $$k , get_exports ( & entrypoint ) ) ;", why="HashMap::insert as finite-map update; the export table is a shared handle"),
        Rule("R6", "let stack = Rc :: new ( RefCell :: new ( Stack :: new ( ) ) ) ;", "let stack = new_stack ( ) ;", why="call stack creation abstract"),
        Rule("R6", "entrypoint . run_function ( $$a ) . with_context ( $$c )", "self . run_module ( & entrypoint , & stack )", why="the run of `__module__` (jump requests come back into process_jump_request: unit c11_module); context text dropped"),
        Rule("R6", "stdout ( ) . lock ( ) . flush ( ) ? ;", "flush_stdout ( ) ? ;", why="flush of the program's output (may fail)"),
        Rule("R3", "eprintln ! ( $$a ) ;", "report ( 0 ) ;", why="the report text is dropped"),
        Rule("R6", "stack . borrow ( ) . size ( )", "stack_size ( & stack )", why="frames left on the call stack"),
        Rule("R1", "if let Err ( e ) = main_ret", "if let Err ( _e ) = main_ret", why="unused binding"),
    ], log, "Program::execute")
    # the `format!("{x}#__module__")` of a changed key: keep only the known form (anything else fails closed below)
    check_closed(b, "Program::execute")
    gen = header(log, f"{FILE}: Program::execute") + SPEC + f"""
impl Program {{
    //@ OBL C11.execute.entry-registered
    pub fn execute(&mut self) -> (r: Result<(), VErr>)
        requires old(self).cache_at_start@ is None,        // ghost: no run has started yet
        ensures
            // the entry module is in the cache when its code starts to run, under the key an import of it uses, with its own export table
            final(self).cache_at_start@ is Some ==> exists|fl: FileV| #![trigger exports_of(&fl)]
                final(self).cache_at_start@->Some_0 == cache_view(&old(self).module_cache).insert(text_of(&old(self).entry_path) + module_suffix(), exports_of(&fl)),
            // the program's failure is execute's failure; a run that leaves frames on the call stack is a failure too
            r is Ok ==> final(self).cache_at_start@ is Some,
    {{
{render(b, 2)}
    }}
}}
}} // verus!
fn main() {{}}
"""
    return gen, [Obl("C11.execute.entry-registered", ["C11", "C17"], fn="Program::execute", desc="Program::execute: the entry module is registered in the module cache before its code runs, under exactly `<path>#__module__`, with its own export table; success only after a run")], log


UNITS = [VUnit("c11_execute", ["C11", "C17"], "start of a run: the entry module is cached under its import key first", build)]
UNITS[0].assumes = ["file loading, the run of `__module__` and the report are abstract callees; the cache as a finite map (R10)", "that importers ask for `<path>#__module__` with the same spelling of the path is the compile side (units c11_path / c11_import_path)"]

"""C11 / C17 / C01: Program::execute (bytecode/src/interpreter.rs) -- the start of a run.  The entry module is registered in the module cache
BEFORE its code runs, under exactly the key an `import` of it is looked up with (`<path>#__module__`, the label the compiler emits): a module
that imports the entrypoint back gets the running instance, and the entrypoint's top-level code is not run a second time (C11).  The run's
outcome is the program's outcome: a failed run -- or a call stack that is not empty at the end -- makes `execute` fail (C17: failure status)."""
from vlib.rules import *

FILE = "bytecode/src/interpreter.rs"

SPEC = r"""
use vstd::prelude::*;
verus! {
pub struct VErr;
#[verifier::external_body] pub struct VString { x: usize }
pub uninterp spec fn text_of(s: &VString) -> Seq<char>;
pub open spec fn module_suffix() -> Seq<char> { seq!['#', '_', '_', 'm', 'o', 'd', 'u', 'l', 'e', '_', '_'] }
// format!("{path}#__module__")
#[verifier::external_body] pub fn module_key(path: &VString) -> (r: VString) ensures text_of(&r) == text_of(path) + module_suffix() { unimplemented!() }
// other ways of spelling a path a change may bring in: uninterpreted
pub uninterp spec fn replaced_text(t: Seq<char>, a: Seq<char>, b: Seq<char>) -> Seq<char>;
impl VString {
    #[verifier::external_body] pub fn replace(&self, a: &str, b: &str) -> (r: VString) ensures text_of(&r) == replaced_text(text_of(self), a@, b@) { unimplemented!() }
}
#[verifier::external_body] pub struct FileV { x: usize }
#[verifier::external_body] #[derive(Clone, Copy)] pub struct ExportsH { x: usize }               // the file's export table (a shared handle)
pub uninterp spec fn exports_of(f: &FileV) -> ExportsH;
#[verifier::external_body] pub fn get_exports(f: &FileV) -> (r: ExportsH) ensures r == exports_of(f) { unimplemented!() }
#[verifier::external_body] pub struct ModuleCache { x: usize }
pub uninterp spec fn cache_view(c: &ModuleCache) -> Map<Seq<char>, ExportsH>;
#[verifier::external_body] pub fn cache_insert(c: &mut ModuleCache, k: VString, v: ExportsH) ensures cache_view(final(c)) == cache_view(old(c)).insert(text_of(&k), v) { unimplemented!() }
#[verifier::external_body] pub struct StackH { x: usize }
#[verifier::external_body] pub fn new_stack() -> (r: StackH) { unimplemented!() }
pub uninterp spec fn final_stack_size(s: &StackH) -> int;
#[verifier::external_body] pub fn stack_size(s: &StackH) -> (r: usize) ensures r == final_stack_size(s) { unimplemented!() }
// the run of the entry module's top-level code; the cache as it was when the run started is recorded
pub uninterp spec fn run_outcome(f: &FileV, s: &StackH) -> bool;        // true: ended without a failure
pub struct Program { pub module_cache: ModuleCache, pub entry_path: VString, pub cache_at_start: Ghost<Option<Map<Seq<char>, ExportsH>>> }
#[verifier::external_body] pub fn flush_stdout() -> (r: Result<(), VErr>) { unimplemented!() }
#[verifier::external_body] pub fn report(x: u8) { unimplemented!() }
impl Program {
    #[verifier::external_body] pub fn get_file(&self, path: &VString) -> (r: Result<FileV, VErr>) { unimplemented!() }
    #[verifier::external_body] pub fn run_module(&mut self, f: &FileV, s: &StackH) -> (r: Result<(), VErr>)
        ensures r is Ok <==> run_outcome(f, s), final(self).cache_at_start@ == Some(cache_view(&old(self).module_cache)), final(self).entry_path == old(self).entry_path { unimplemented!() }
}
"""


def fmt_key(bb):
    import re as _re
    m = _re.fullmatch(r'"\{(\w+)\}#__module__"', text(bb["s"]))
    if not m:
        return None
    return f"module_key ( & {m.group(1)} )" if m.group(1) != "path" else "module_key ( path )"


def build(repo):
    src = Source(repo)
    log = []
    f = src.fn(FILE, "execute", "impl Program")
    b = translate(f["body"], [
        Rule("R3", "bail ! $a", "return Err ( VErr )", why="bail! -> return Err"),
        Rule("R10", "let path = self . entrypoint . upgrade ( ) . unwrap ( ) ;", "let path = & self . entry_path ;", why="Weak<String> of the entry path -> field"),
        Rule("R6", "self . get_file ( & path ) ?", "self . get_file ( path ) ?", why="file loading abstract"),
        Rule("R10", "let mut cache_view = self . module_cache . borrow_mut ( ) ;", "", why="RefCell borrow of the cache dropped (cache is a &mut field)"),
        Rule("R9", "format ! ( $s )", fmt_key, why="format!(\"{x}#__module__\"): the text of x followed by the module label"),
        Rule("R10", "cache_view . insert ( $$k , RefCell :: new ( entrypoint . get_exports ( ) . clone ( ) ) , ) ;", "cache_insert ( & mut self . module_cache , $$k , get_exports ( & entrypoint ) ) ;", why="HashMap::insert as finite-map update; the export table is a shared handle"),
        Rule("R6", "let stack = Rc :: new ( RefCell :: new ( Stack :: new ( ) ) ) ;", "let stack = new_stack ( ) ;", why="call stack creation abstract"),
        Rule("R6", "entrypoint . run_function ( $$a ) . with_context ( $$c )", "self . run_module ( & entrypoint , & stack )", why="the run of `__module__` (jump requests come back into process_jump_request: unit c11_module); context text dropped"),
        Rule("R6", "stdout ( ) . lock ( ) . flush ( ) ? ;", "flush_stdout ( ) ? ;", why="flush of the program's output (may fail)"),
        Rule("R3", "eprintln ! ( $$a ) ;", "report ( 0 ) ;", why="the report text is dropped"),
        Rule("R6", "stack . borrow ( ) . size ( )", "stack_size ( & stack )", why="frames left on the call stack"),
        Rule("R1", "if let Err ( e ) = main_ret", "if let Err ( _e ) = main_ret", why="unused binding"),
    ], log, "Program::execute")
    # the `format!("{x}#__module__")` of a changed key: keep only the known form (anything else fails closed below)
    check_closed(b, "Program::execute")
    gen = header(log, f"{FILE}: Program::execute") + SPEC + f"""
impl Program {{
    //@ OBL C11.execute.entry-registered
    pub fn execute(&mut self) -> (r: Result<(), VErr>)
        requires old(self).cache_at_start@ is None,        // ghost: no run has started yet
        ensures
            // the entry module is in the cache when its code starts to run, under the key an import of it uses, with its own export table
            final(self).cache_at_start@ is Some ==> exists|fl: FileV| #![trigger exports_of(&fl)]
                final(self).cache_at_start@->Some_0 == cache_view(&old(self).module_cache).insert(text_of(&old(self).entry_path) + module_suffix(), exports_of(&fl)),
            // the program's failure is execute's failure; a run that leaves frames on the call stack is a failure too
            r is Ok ==> final(self).cache_at_start@ is Some,
    {{
{render(b, 2)}
    }}
}}
}} // verus!
fn main() {{}}
"""
    return gen, [Obl("C11.execute.entry-registered", ["C11", "C17"], fn="Program::execute", desc="Program::execute: the entry module is registered in the module cache before its code runs, under exactly `<path>#__module__`, with its own export table; success only after a run")], log


UNITS = [VUnit("c11_execute", ["C11", "C17"], "start of a run: the entry module is cached under its import key first", build)]
UNITS[0].assumes = ["file loading, the run of `__module__` and the report are abstract callees; the cache as a finite map (R10)", "that importers ask for `<path>#__module__` with the same spelling of the path is the compile side (units c11_path / c11_import_path)"]


# =====================================================================================================================
# C17 / C19: the end of a run -- what Program::execute does with a failure: the program's output is flushed first, then ONE report is written
# that shows the error itself (its whole cause chain, `{e:?}`) under the full call-stack trace taken at the point of failure (Display for
# Stack: obligation C17.trace.display), and execute fails.  Fragment: from `let main_ret = ..` to the end of the function.
REPORT_SPEC = r"""
use vstd::prelude::*;
verus! {
// an error: who it is (identity: the failure that happened) and the contexts added on its way up, innermost first
pub struct VErr { pub id: Ghost<int>, pub ctx: Ghost<Seq<Seq<char>>> }
pub fn verr_new() -> (r: VErr) ensures r.ctx@.len() == 0 { VErr { id: Ghost(arbitrary()), ctx: Ghost(Seq::empty()) } }
#[verifier::external_body] pub struct VString { x: usize }
pub uninterp spec fn text_of(s: &VString) -> Seq<char>;
#[verifier::external_body] pub struct StackH { x: usize }
pub uninterp spec fn trace_text(s: &StackH) -> Seq<char>;            // Display for Stack at the point of failure: every active frame, innermost first
pub uninterp spec fn final_stack_size(s: &StackH) -> int;
impl StackH {
    #[verifier::external_body] pub fn to_string(&self) -> (r: VString) ensures text_of(&r) == trace_text(self) { unimplemented!() }
    #[verifier::external_body] pub fn size(&self) -> (r: usize) ensures r == final_stack_size(self) { unimplemented!() }
}
// what the user sees of a failed run
pub enum Event { FlushedStdout, FatalReport { id: int, ctx: Seq<Seq<char>> }, StackMismatchReport, OtherText(Seq<char>) }
pub struct Out { pub ev: Ghost<Seq<Event>> }
pub fn flush_stdout(out: &mut Out) -> (r: Result<(), VErr>) ensures r is Ok ==> final(out).ev@ == old(out).ev@.push(Event::FlushedStdout), r is Err ==> final(out).ev@ == old(out).ev@
{ out.ev = Ghost(out.ev@.push(Event::FlushedStdout)); Ok(()) }
// eprintln! of the banner with `{e:?}`: anyhow's Debug shows the outermost context, then the whole `Caused by:` chain down to the error itself
pub fn report_error(out: &mut Out, e: &VErr) ensures final(out).ev@ == old(out).ev@.push(Event::FatalReport { id: e.id@, ctx: e.ctx@ }) { out.ev = Ghost(out.ev@.push(Event::FatalReport { id: e.id@, ctx: e.ctx@ })); }
pub fn report_mismatch(out: &mut Out) ensures final(out).ev@ == old(out).ev@.push(Event::StackMismatchReport) { out.ev = Ghost(out.ev@.push(Event::StackMismatchReport)); }
pub fn report_text(out: &mut Out, t: &VString) ensures final(out).ev@ == old(out).ev@.push(Event::OtherText(text_of(t))) { out.ev = Ghost(out.ev@.push(Event::OtherText(text_of(t)))); }
// Result::with_context: an error keeps its identity and gains the context text
pub trait WithCtx<T> { fn verif_with_context(self, c: VString) -> (r: Result<T, VErr>); }
impl<T> WithCtx<T> for Result<T, VErr> {
    #[verifier::external_body] fn verif_with_context(self, c: VString) -> (r: Result<T, VErr>)
        ensures self is Ok ==> r == self, self is Err ==> r is Err && r->Err_0.id@ == self->Err_0.id@ && r->Err_0.ctx@ == self->Err_0.ctx@.push(text_of(&c)) { unimplemented!() }
}
// the run of the entry module's `__module__` (jump requests come back into process_jump_request: unit c11_module)
pub uninterp spec fn run_error(s: &StackH) -> Option<int>;          // None: ran to its end
#[verifier::external_body] pub fn run_entry_module(s: &StackH) -> (r: Result<(), VErr>)
    ensures r is Ok <==> run_error(s) is None, r is Err ==> r->Err_0.id@ == run_error(s)->Some_0 && r->Err_0.ctx@ == Seq::<Seq<char>>::empty() { unimplemented!() }
// ---- text building a change may put between the error and the report: every result is a text nothing is known about ----
#[verifier::external_body] pub struct LinesV { x: usize }
#[verifier::external_body] pub struct TextVec { x: usize }
impl VString {
    #[verifier::external_body] pub fn lines(&self) -> (r: LinesV) { unimplemented!() }
    #[verifier::external_body] pub fn split(&self, sep: &str) -> (r: LinesV) { unimplemented!() }
    #[verifier::external_body] pub fn push_str(&mut self, s: &VString) { unimplemented!() }
    #[verifier::external_body] pub fn len(&self) -> (r: usize) { unimplemented!() }
}
impl LinesV {
    #[verifier::external_body] pub fn count(self) -> (r: usize) { unimplemented!() }
    #[verifier::external_body] pub fn take(self, n: usize) -> (r: LinesV) { unimplemented!() }
    #[verifier::external_body] pub fn skip(self, n: usize) -> (r: LinesV) { unimplemented!() }
    #[verifier::external_body] pub fn collect_vec(self) -> (r: TextVec) { unimplemented!() }
}
impl TextVec {
    #[verifier::external_body] pub fn join(&self, sep: &str) -> (r: VString) { unimplemented!() }
    #[verifier::external_body] pub fn len(&self) -> (r: usize) { unimplemented!() }
}
#[verifier::external_body] pub fn debug_text(e: &VErr) -> (r: VString) { unimplemented!() }          // format!("{e:?}") as a String: NOT the report itself
#[verifier::external_body] pub fn some_text() -> (r: VString) { unimplemented!() }                  // any other format!(..)
"""


def build_report(repo):
    import re as _re
    src = Source(repo)
    log = []
    f = src.fn(FILE, "execute", "impl Program")
    body = f["body"]
    from vlib.pattern import Pat
    p = Pat("let main_ret =")
    at = None
    for i in range(len(body)):
        if p.match_at(body, i):
            at = i; break
    if at is None:
        raise Undecided(f"{FILE}: `let main_ret = ..` not found in Program::execute")
    frag = list(body[at:])
    log.append(("R0", "Program::execute", "from `let main_ret = ..` to the end", "fragment: the start of the run is unit c11_execute"))

    def eprint(b):
        a = b["a"]
        if not a or not a[0].startswith('"'):
            return None
        lit, rest = a[0], " ".join(a[1:])
        caps = _re.findall(r"\{(\w*)(?::([^}]*))?\}", lit)
        if "FATAL RUNTIME ERROR" in lit:
            if len(caps) == 1 and caps[0][1] == "?" and caps[0][0]:
                return f"report_error ( out , & {caps[0][0]} ) ;"
            if len(caps) == 1 and caps[0][0] and caps[0][1] == "":
                return f"report_text ( out , & {caps[0][0]} ) ;"
            if len(caps) == 1 and not caps[0][0] and len(a) == 3 and a[1] == ",":
                return (f"report_error ( out , & {a[2]} ) ;" if caps[0][1] == "?" else f"report_text ( out , & {a[2]} ) ;")
            raise Undecided("Program::execute: the fatal report prints something the translation does not read")
        if "STACK MISMATCH" in lit:
            return "report_mismatch ( out ) ;"
        raise Undecided("Program::execute: an eprintln! that is neither the fatal report nor the stack-mismatch report")

    def fmt(b):
        a = b["a"][1:-1]
        m = _re.fullmatch(r'"\{(\w+):#?\?\}"', a[0]) if len(a) == 1 else None
        if m:
            return "debug_text ( & " + m.group(1) + " )"
        return "some_text ( )"

    b = translate(frag, [
        Rule("R3", "bail ! $a", "return Err ( verr_new ( ) )", why="bail! -> a NEW error"),
        Rule("R6", "entrypoint . run_function ( $$a )", "run_entry_module ( & stack )", why="the run of `__module__`: abstract callee"),
        Rule("R3", ". with_context ( || $$e )", ". verif_with_context ( $$e )", why="Result::with_context: the error keeps its identity and gains the closure's text (evaluated eagerly here: it is pure)"),
        Rule("R10", "stack . borrow ( )", "stack", why="RefCell borrow of the call stack dropped"),
        Rule("R10", "& stack", "& stack", why=""),
        Rule("R6", "stdout ( ) . lock ( ) . flush ( ) ? ;", "flush_stdout ( out ) ? ;", why="flush of the program's output (may fail)"),
        Rule("R3", "eprintln ! ( $$a ) ;", eprint, why="the report: WHICH error / text it shows is kept, the banner text is dropped"),
        Rule("R9", "format ! $a", fmt, why="format!: a text nothing is known about (except `{e:?}` of an error: its Debug text as a String)"),
        Rule("R9", ". collect :: < Vec < _ >> ( )", ". collect_vec ( )", why="collect into a Vec of lines"),
        Rule("R3", "log :: info ! $a ;", "", why="logging dropped"),
    ], log, "Program::execute[report]")
    check_closed(b, "Program::execute[report]")
    gen = header(log, f"{FILE}: Program::execute, from `let main_ret = ..`") + REPORT_SPEC + f"""
//@ OBL C17.execute.report
pub fn execute_tail(stack: StackH, out: &mut Out) -> (r: Result<(), VErr>)
    ensures
        // the program failed: its output is flushed first, then exactly one report shows THAT error under the full call-stack trace; execute fails
        run_error(&stack) is Some ==> r is Err && (final(out).ev@ == old(out).ev@                                     // (only when flushing stdout itself fails)
            || final(out).ev@ == old(out).ev@.push(Event::FlushedStdout).push(Event::FatalReport {{ id: run_error(&stack)->Some_0, ctx: Seq::<Seq<char>>::empty().push(trace_text(&stack)) }})),
        // the program ran to its end: success exactly when the call stack is empty again; no fatal report
        run_error(&stack) is None ==> (r is Ok <==> final_stack_size(&stack) == 0) && (r is Ok ==> final(out).ev@ == old(out).ev@),
{{
{render(b, 1)}
}}
}} // verus!
fn main() {{}}
"""
    return gen, [Obl("C17.execute.report", ["C17", "C19", "C01"], fn="Program::execute[report]",
                     desc="Program::execute on a failed run: stdout flushed first, then one report showing the error itself (whole cause chain) under the complete call-stack trace of the point of failure; execute fails; a clean run reports nothing")], log


UNITS.append(VUnit("c17_execute_report", ["C17", "C19", "C01"], "end of a run: flush, one complete report, failure", build_report))
UNITS[-1].type_map = {"Stack": "StackH", "Ref < Stack >": "StackH"}
UNITS[-1].assumes = ["anyhow: `{e:?}` prints the outermost context followed by the whole `Caused by:` chain; with_context keeps the error (assumed library contracts)",
                     "Display for Stack is its own obligation (C17.trace.display); the run itself and stderr are abstract"]

"""C05 / C01 / C15: the `bin_op` handler (bytecode/src/instruction.rs) -- which operator each operator symbol applies, and to which
operand on which side.  The operator table `match (symbols.as_str(), &left, &right) { .. }` is extracted verbatim (K-t) together with
the by-value operator impls it calls (`impl Add for Primitive { &self + &rhs }` ...), and compared, symbol by symbol and for all
operand values, with the by-reference operator of that meaning (units c05_ops / c05_muldiv decide those against the property's
arithmetic).  The compile side hands the handler `Op::symbol()` (c15_binop: left operand below, right operand on top); the table
`Op::symbol` is read from the source and every binary operator's symbol must be the one the property's notation gives it.
The handler's frame (pops, pointer views, result replaces the stack) is V-t: unit c05_binop_frame."""
import re
from pathlib import Path
from vlib.rules import *
from vlib.pattern import Pat
from vlib.extract import split_arms, find_block_after
from vlib.lexer import match_close
from vlib import kani as K
from vlib.core import UnitResult

INSTR = "bytecode/src/instruction.rs"
MATH = "compiler/src/ast/math_expr.rs"

# symbol -> (index, operand kind of the harness): `* / %` on bytes (8-bit multiplier / divider keeps SAT small; the table does not
# look at operand kinds), the logical operators on bools, the rest on ints
SYMS = [("+", "add", "int"), ("-", "sub", "int"), ("*", "mul", "byte"), ("/", "div", "byte"), ("%", "rem", "byte"),
        (">", "gt", "int"), ("<", "lt", "int"), (">=", "ge", "int"), ("<=", "le", "int"), ("=", "eq", "int"),
        ("&&", "and", "bool"), ("||", "or", "bool"), ("^", "bxor", "bool"),
        ("|", "bitor", "int"), ("xor", "bitxor", "int"), ("&", "bitand", "int"), ("<<", "shl", "int"), (">>", "shr", "int")]

# the property's notation: operator -> the symbol text the compiler must hand to bin_op (Eq / Neq compile to equ / neq: c15_binop)
OP_SYMBOL = {"Add": "+", "Subtract": "-", "Multiply": "*", "Divide": "/", "Modulo": "%", "Lt": "<", "Lte": "<=", "Gt": ">", "Gte": ">=",
             "And": "&&", "Or": "||", "Xor": "^", "BinaryXor": "xor", "BinaryAnd": "&", "BinaryOr": "|", "BitwiseLs": "<<", "BitwiseRs": ">>", "Is": "is"}

HARNESS = r"""
// ======== real text: the operator table of `bin_op` (instruction.rs); `("is", ..)` arm dropped (object identity: C08.is.identity) ========
pub fn dispatch(symbols: &String, left: Primitive, right: Primitive) -> Result<Primitive> {
    use Primitive::*;
    TABLE
}
#[cfg(kani)]
mod verif_dispatch {
    use super::*;
    fn operand(k: u8) -> Primitive { match k { 0 => Primitive::Int(kani::any()), 1 => Primitive::Byte(kani::any()), _ => Primitive::Bool(kani::any()) } }
    fn check(i: u8, k: u8, sym: &str) {
        let (l, r) = (operand(k), operand(k));
        let got = dispatch(&String::from(sym), l.clone(), r.clone());
        // `a op b`: the left operand is the operator's left operand -- by-reference operators under contract in c05_ops / c05_muldiv
        let want: Result<Primitive> = match i {
            0 => &l + &r, 1 => &l - &r, 2 => &l * &r, 3 => &l / &r, 4 => &l % &r,
            5 => Ok(Primitive::Bool(l > r)), 6 => Ok(Primitive::Bool(l < r)), 7 => Ok(Primitive::Bool(l >= r)), 8 => Ok(Primitive::Bool(l <= r)),
            9 => l.equals(&r).map(Primitive::Bool),
            10 | 11 | 12 => match (&l, &r) { (Primitive::Bool(x), Primitive::Bool(y)) => Ok(Primitive::Bool(if i == 10 { *x && *y } else if i == 11 { *x || *y } else { *x != *y })), _ => Ok(Primitive::Bool(false)) },
            13 => &l | &r, 14 => &l ^ &r, 15 => &l & &r, 16 => &l << &r, _ => &l >> &r,
        };
        match (got, want) {
            (Ok(a), Ok(b)) => assert!(a == b, "C05.dispatch: the symbol does not apply its operator to (left, right)"),
            (Err(_), Err(_)) => (),
            _ => assert!(false, "C05.dispatch: the symbol fails / succeeds differently from its operator on (left, right)"),
        }
    }
    macro_rules! h { ($name:ident, $f:ident ( $($a:expr),* )) => { #[kani::proof] fn $name() { $f($($a),*) } } }
HARNESSES
}
"""


def op_symbol_table(src):
    f = src.fn(MATH, "symbol", "impl Op")
    try:
        _, o, c = find_block_after(f["body"], "match self")
    except Exception as e:
        raise Undecided(f"{MATH}: `match self` of Op::symbol not found: {e}")
    table = {}
    for pat, body in split_arms(f["body"][o + 1:c]):
        p = text(pat).replace(" ", "")
        m = re.fullmatch(r"(?:Op::|Self::)?(\w+)", p)
        b = [t for t in body if t != ","]
        if not m or len(b) != 1 or not b[0].startswith('"'):
            raise Undecided(f"Op::symbol: arm `{text(pat)} => {text(body)}` is not `Variant => \"text\"`")
        table[m.group(1)] = b[0].strip('"')
    return table


class DispatchUnit:
    engine = "kani"
    uid = "c05_dispatch"
    props = ["C05", "C01", "C15", "C06"]
    title = "bin_op: operator symbol -> operator, operand sides (K-t, all operand values) + Op::symbol table"
    timeout = 1500
    assumes = ["K-t: the operator table of bin_op is extracted verbatim; popping the operands and replacing the stack are unit c05_binop_frame; the `is` arm is dropped (C08.is.identity)",
               "operand kinds per symbol: ints, bytes for `* / %`, bools for the logical operators (the table itself does not look at the kinds; the operators' own kind dispatch is c05_ops / c05_muldiv)",
               "Op::symbol read as a finite table (fails closed on another arm shape)"]

    def run(self, repo, workdir, tier):
        from units.c05_ops import extract_crate, SHIMS
        res = UnitResult(self.uid)
        res.engine = "kani 0.68 / cbmc 6.11 (K-t)"
        src = Source(repo)
        f = src.fn(INSTR, "bin_op", "pub mod implementations")
        body = f["body"]
        try:
            _, o, c = find_block_after(body, "match ( symbols . as_str ( ) , & left , & right )")
        except Exception as e:
            raise Undecided(f"bin_op: the operator table `match (symbols.as_str(), &left, &right)` not found: {e}")
        arms = split_arms(body[o + 1:c])
        kept = []
        dropped = 0
        for pat, b in arms:
            if text(pat).replace(" ", "").startswith('("is",'):
                dropped += 1
                continue
            kept += list(pat) + ["=>"] + list(b) + [","]
        if dropped != 1:
            raise Undecided(f"bin_op: expected exactly one `(\"is\", ..)` arm, found {dropped}")
        not_blind = sorted({text(pat).split(",")[0].strip("( \"") for pat, b in arms if not text(pat).replace(" ", "").startswith('("is",')
                            and not re.fullmatch(r'\("[^"]*",(\.\.|_,_)\)', text(pat).replace(" ", ""))})
        table = ["match", "(", "symbols", ".", "as_str", "(", ")", ",", "&", "left", ",", "&", "right", ")", "{"] + kept + ["}"]
        real, dropped_log = extract_crate(repo)
        # the by-value impls the table calls
        byval = []
        for fl, tr in (("add", "Add"), ("sub", "Sub"), ("mul", "Mul"), ("div", "Div"), ("rem", "Rem")):
            rel = f"bytecode/src/variables/ops/{fl}.rs"
            it = src.item(rel, f"impl std :: ops :: {tr} for Primitive")
            byval.append(f"// {rel} : impl std::ops::{tr} for Primitive (verbatim)\n" + render(it["all"], 0))
        hs = [(f"h_{n}", f"check({i}, {0 if k == 'int' else 1 if k == 'byte' else 2}, \"{s}\")", f"C05.dispatch.{n}") for i, (s, n, k) in enumerate(SYMS)]
        # `* / %` on ints as well: "the table does not look at operand kinds" is an assumption a fast path for one kind breaks (seed C06-20); on a
        # kind-blind table both sides are the same operator call; the 32-bit divider is beyond CBMC here, so for `/` and `%` kind-blindness itself is
        # decided by reading the arms (`("/", ..)`): an arm that names an operand kind leaves the symbol undecided
        hs += [(f"h_{n}_int", f"check({i}, 0, \"{s}\")", f"C05.dispatch.{n}.int") for i, (s, n, k) in enumerate(SYMS) if n == "mul"]
        htext = "\n".join(f"    h!({n}, {c});" for n, c, _ in hs)
        lib = SHIMS + "\n" + real + "\n" + "\n".join(byval) + "\n" + HARNESS.replace("TABLE", render(table, 1)).replace("HARNESSES", htext)
        crate = K.write_crate(Path(workdir) / "kt_dispatch", "kt_dispatch", "// GENERATED (K-t) from bytecode/src/instruction.rs bin_op + the operator impls\n" + lib)
        res.gen_path = str(crate / "src/lib.rs")
        per, raw, wall, cmd, timed_out = K.run_kani(crate, harness_filter="verif_dispatch", jobs=10, timeout=self.timeout, harness_timeout=400)
        # a constant of instruction.rs the table names (an error text, a limit): taken over verbatim, then the crate is built again
        import re as _re
        for _ in range(4):
            mc = _re.search(r"cannot find value `([A-Z][A-Z0-9_]*)` in this scope", raw) if not per else None
            if not mc:
                break
            md = _re.search(r"(?:pub(?:\([a-z]+\))?\s+)?(?:const|static)\s+" + mc.group(1) + r"\s*:[^;]*;", (Path(repo) / INSTR).read_text())
            if not md or ("verbatim constant " + mc.group(1)) in lib:
                break
            lib = lib.replace(real, f"// {INSTR}: verbatim constant {mc.group(1)}\n{md.group(0)}\n" + real, 1)
            crate = K.write_crate(Path(workdir) / "kt_dispatch", "kt_dispatch", "// GENERATED (K-t) from bytecode/src/instruction.rs bin_op + the operator impls\n" + lib)
            per, raw, wall, cmd, timed_out = K.run_kani(crate, harness_filter="verif_dispatch", jobs=10, timeout=self.timeout, harness_timeout=400)
        res.raw = raw[-8000:]; res.checker_cmd = cmd
        res.functions = ["instruction.rs: bin_op (operator table)", "ops/{add,sub,mul,div,rem}.rs: impl <Op> for Primitive (by value)", "math_expr.rs: Op::symbol"]
        res.samples = [f"{o}: {c}" for _, c, o in hs[:2]]
        if not per:
            res.undecided = "kani produced no harness results: " + raw[-2500:]
            return res
        obls = []
        for n, call, oid in hs:
            r = per.get(n)
            o = Obl(oid, ["C05", "C01", "C15", "C06"], fn="bin_op[operator table]", engine="kani/cbmc", desc=f"{call}: the symbol applies the operator of that meaning with the left operand on the left, all operand values")
            if r is None or r["status"] is None or r["oom"] or r["unwind"] or r["unsupported"]:
                o.status = "undecided"; o.detail = "no verdict" if r is None or not r.get("timeout") else "CBMC timed out"
            else:
                named_f, panics, ign, other = K.classify(r["failed"])
                o.time_s = r["time"]
                if other:
                    o.status = "undecided"; o.detail = repr(other[:2])
                else:
                    # overflow panics inside the operators are D9 (C17), not this obligation
                    o.status = "failed" if named_f else "discharged"; o.detail = "\n".join(f"{d} @ {l}" for d, l in named_f)
            sym = call.split('"')[1]
            if sym in not_blind and o.status == "discharged" and not oid.endswith(".int") and dict((s_, k_) for s_, n_, k_ in SYMS).get(sym) == "byte":
                o.status = "undecided"; o.detail = f"an arm of the table for `{sym}` names an operand kind: the harness over {dict((s_, k_) for s_, n_, k_ in SYMS)[sym]} operands does not speak for the other kinds"
            obls.append(o)
        # ---- Op::symbol: finite table, decided by comparison (exhaustive enumeration)
        st = op_symbol_table(src)
        for op, want in OP_SYMBOL.items():
            o = Obl(f"C05.symbol.{op}", ["C05", "C01", "C15"], fn="Op::symbol", engine="table comparison (exhaustive enumeration of a finite table read from the source)",
                    desc=f"Op::{op} is handed to bin_op as `{want}`")
            got = st.get(op)
            if got is None:
                o.status = "undecided"; o.detail = f"Op::symbol has no arm for {op}"
            elif got == want:
                o.status = "discharged"; o.time_s = 0.0
            else:
                o.status = "failed"; o.detail = f"Op::{op}.symbol() is `{got}`; the operator's notation is `{want}`"
            obls.append(o)
        res.obls = obls
        return res


UNITS = [DispatchUnit()]
